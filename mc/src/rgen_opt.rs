//------------ SVCB / HTTPS ----------------------------------------------------

/// One service parameter: key, reference value octets, how to push it.
#[derive(Clone)]
pub struct SvcParamSpec {
    pub tag: String,
    pub key: u16,
    pub value: Vec<u8>,
    kind: SvcKind,
}

#[derive(Clone)]
enum SvcKind {
    Mandatory(Vec<u16>),
    Alpn(Vec<Vec<u8>>),
    NoDefaultAlpn,
    Port(u16),
    Ech(Vec<u8>),
    V4(Vec<[u8; 4]>),
    V6(Vec<[u8; 16]>),
    DohPath(Vec<u8>),
    Ohttp,
    TlsGroups(Vec<u16>),
    Unknown(Vec<u8>),
}

impl SvcParamSpec {
    fn new(kind: SvcKind, key: u16, tag: &str) -> SvcParamSpec {
        let value: Vec<u8> = match &kind {
            SvcKind::Mandatory(k) | SvcKind::TlsGroups(k) => k.iter().flat_map(|k| k.to_be_bytes()).collect(),
            SvcKind::Alpn(ps) => ps.iter().flat_map(|p| std::iter::once(p.len() as u8).chain(p.iter().cloned())).collect(),
            SvcKind::NoDefaultAlpn | SvcKind::Ohttp => vec![],
            SvcKind::Port(p) => p.to_be_bytes().to_vec(),
            SvcKind::Ech(b) | SvcKind::DohPath(b) | SvcKind::Unknown(b) => b.clone(),
            SvcKind::V4(a) => a.iter().flatten().cloned().collect(),
            SvcKind::V6(a) => a.iter().flatten().cloned().collect(),
        };
        SvcParamSpec { tag: tag.to_string(), key, value, kind }
    }

    /// Push this parameter through the library's typed value API.
    pub fn push(&self, b: &mut rdata::svcb::SvcParamsBuilder<Vec<u8>>) -> Result<(), String> {
        use rdata::svcb::value::*;
        use rdata::svcb::UnknownSvcParam;
        use domain::base::iana::SvcParamKey;
        match &self.kind {
            SvcKind::Mandatory(k) => {
                let v = Mandatory::<Vec<u8>>::from_keys(k.iter().map(|k| SvcParamKey::from_int(*k))).map_err(es)?;
                b.push(&v).map_err(es)
            }
            SvcKind::Alpn(ps) => {
                let mut ab = AlpnBuilder::<Vec<u8>>::empty();
                for p in ps {
                    ab.push(p).map_err(es)?;
                }
                b.push(&ab.freeze()).map_err(es)
            }
            SvcKind::NoDefaultAlpn => b.push(&NoDefaultAlpn).map_err(es),
            SvcKind::Port(p) => b.push(&Port::new(*p)).map_err(es),
            SvcKind::Ech(e) => b.push(&Ech::from_octets(e.clone()).map_err(es)?).map_err(es),
            SvcKind::V4(a) => {
                let v = Ipv4Hint::<Vec<u8>>::from_addrs(a.iter().map(|a| Ipv4Addr::from(*a))).map_err(es)?;
                b.push(&v).map_err(es)
            }
            SvcKind::V6(a) => {
                let v = Ipv6Hint::<Vec<u8>>::from_addrs(a.iter().map(|a| Ipv6Addr::from(*a))).map_err(es)?;
                b.push(&v).map_err(es)
            }
            SvcKind::DohPath(p) => b.push(&DohPath::from_octets(p.clone()).map_err(es)?).map_err(es),
            SvcKind::Ohttp => b.push(&Ohttp).map_err(es),
            SvcKind::TlsGroups(k) => {
                let v = TlsSupportedGroups::<Vec<u8>>::from_keys(k.iter().cloned()).map_err(es)?;
                b.push(&v).map_err(es)
            }
            SvcKind::Unknown(v) => {
                let v = UnknownSvcParam::new(SvcParamKey::from_int(self.key), v.clone()).map_err(es)?;
                b.push(&v).map_err(es)
            }
        }
    }
}

/// Parameter sets (push order as listed): every parameter type alone with
/// its boundary values, unknown keys, combinations in sorted / reversed /
/// middle-insert push order, duplicates (expected refusal), maximum size.
pub fn svc_param_sets(tier: Tier) -> Vec<Vec<SvcParamSpec>> {
    use SvcKind::*;
    let p = SvcParamSpec::new;
    let mut singles = vec![
        p(Mandatory(vec![1]), 0, "mandatory[alpn]"),
        p(Alpn(vec![b"h2".to_vec()]), 1, "alpn[h2]"),
        p(NoDefaultAlpn, 2, "no-default-alpn"),
        p(Port(443), 3, "port443"),
        p(V4(vec![[192, 0, 2, 1]]), 4, "ipv4hint1"),
        p(Ech(vec![1, 2, 3]), 5, "ech3"),
        p(V6(vec![[0x20; 16]]), 6, "ipv6hint1"),
        p(DohPath(b"/dns-query{?dns}".to_vec()), 7, "dohpath"),
        p(Ohttp, 8, "ohttp"),
        p(TlsGroups(vec![29, 23]), 9, "tlsgroups"),
        p(Unknown(vec![0xde, 0xad]), 65280, "key65280"),
    ];
    let mut sets: Vec<Vec<SvcParamSpec>> = vec![vec![]];
    if tier == Tier::Compact {
        sets.push(vec![singles[1].clone(), singles[3].clone()]);
        sets.push(vec![singles[3].clone(), singles[1].clone(), singles[4].clone()]);
        return sets;
    }
    singles.extend([
        p(Mandatory(vec![]), 0, "mandatory[]"),
        p(Mandatory(vec![1, 3, 65535]), 0, "mandatory[1,3,65535]"),
        p(Alpn(vec![]), 1, "alpn[]"),
        p(Alpn(vec![b"h3".to_vec(), fill_alpha(255)]), 1, "alpn[h3,255B]"),
        p(Alpn(vec![fill_alpha(256)]), 1, "alpn[256B]"), // refusal
        p(Alpn(vec![vec![]]), 1, "alpn[empty-id]"),      // refusal
        p(Port(0), 3, "port0"),
        p(Port(65535), 3, "port65535"),
        p(Port(256), 3, "port256"),
        p(V4(vec![]), 4, "ipv4hint0"),
        p(V4(vec![[0; 4], [255; 4], [1, 2, 3, 4]]), 4, "ipv4hint3"),
        p(Ech(vec![]), 5, "ech0"),
        p(Ech(fill(255, 20)), 5, "ech255"),
        p(V6(vec![]), 6, "ipv6hint0"),
        p(V6(vec![[0; 16], [255; 16]]), 6, "ipv6hint2"),
        p(DohPath(vec![]), 7, "dohpath0"),
        p(TlsGroups(vec![]), 9, "tlsgroups0"),
        p(TlsGroups(vec![0, 65535]), 9, "tlsgroups[0,65535]"),
        p(Unknown(vec![]), 10, "key10-empty"),
        p(Unknown(fill(255, 21)), 255, "key255"),
        p(Unknown(vec![7]), 256, "key256"),
        p(Unknown(vec![]), 65535, "key65535"),
        // a known key pushed as unknown data
        p(Unknown(vec![0x01, 0xbb]), 3, "key3-as-unknown"),
    ]);
    for s in &singles {
        sets.push(vec![s.clone()]);
    }
    let (alpn, port, v4, unk, ech, man) = (
        singles[1].clone(),
        singles[3].clone(),
        singles[4].clone(),
        singles[10].clone(),
        singles[5].clone(),
        singles[0].clone(),
    );
    // all 6 push orders of three parameters, all 2 of two
    let tri = [alpn.clone(), port.clone(), unk.clone()];
    for perm in [[0, 1, 2], [0, 2, 1], [1, 0, 2], [1, 2, 0], [2, 0, 1], [2, 1, 0]] {
        sets.push(perm.iter().map(|&k| tri[k].clone()).collect());
    }
    sets.push(vec![man.clone(), alpn.clone()]);
    sets.push(vec![alpn.clone(), man.clone()]);
    // duplicate key: expected refusal
    sets.push(vec![port.clone(), alpn.clone(), port.clone()]);
    // four parameters pushed from the middle outwards
    sets.push(vec![v4.clone(), port.clone(), ech.clone(), alpn.clone(), unk.clone()]);
    // every defined key at once, reverse order
    let mut all: Vec<SvcParamSpec> = singles[..11].to_vec();
    all.reverse();
    sets.push(all);
    if tier == Tier::Thorough {
        // maximal sizes: one value of 65535 octets (cannot fit any record),
        // and one that fills the RDATA exactly (priority 2 + root 1 + 4)
        sets.push(vec![p(Unknown(fill(65535, 22)), 65281, "key65281-65535B")]);
        sets.push(vec![p(Unknown(fill(65536, 22)), 65281, "key65281-65536B")]);
        sets.push(vec![p(Unknown(fill(65535 - 7, 23)), 65281, "key65281-fill-root")]);
        sets.push(vec![p(Unknown(fill(65535 - 6, 23)), 65281, "key65281-fill-root+1")]);
        sets.push(vec![p(Ech(fill(65535 - 7, 24)), 5, "ech-fill-root")]);
    }
    sets
}

/// Reference encoding of a parameter set: ascending key order.
pub fn svc_params_wire(set: &[SvcParamSpec]) -> Vec<u8> {
    let mut sorted: Vec<&SvcParamSpec> = set.iter().collect();
    sorted.sort_by_key(|p| p.key);
    let mut out = Vec::new();
    for p in sorted {
        out.extend_from_slice(&p.key.to_be_bytes());
        out.extend_from_slice(&(p.value.len() as u16).to_be_bytes());
        out.extend_from_slice(&p.value);
    }
    out
}

fn gen_svcb(m: &Menus, s: &mut Sink, https: bool) {
    let (prios, ns, sets) = (m.u16s(3), m.names(3), svc_param_sets(m.tier));
    prod(&[prios.len(), ns.len(), sets.len()], |i| {
        if !s.want() {
            return;
        }
        let set = &sets[i[2]];
        let mut r = Ref::new();
        let prio = r.u16("prio", prios[i[0]]);
        let target = r.name("target", &ns[i[1]]);
        for p in set {
            if p.value.len() > 65535 {
                r.unrepresentable = Some(format!("{} longer than 65535 octets", p.tag));
            }
            if let SvcKind::Alpn(ids) = &p.kind {
                if ids.iter().any(|i| i.len() > 255) {
                    r.unrepresentable = Some("alpn-id longer than 255 octets".into());
                }
            }
        }
        let mut keys: Vec<u16> = set.iter().map(|p| p.key).collect();
        keys.sort();
        if keys.windows(2).any(|w| w[0] == w[1]) {
            r.unrepresentable = Some("duplicate SvcParamKey".into());
        }
        r.lit(&svc_params_wire(set));
        r.note(format!("params=[{}]", set.iter().map(|p| p.tag.as_str()).collect::<Vec<_>>().join(";")));
        s.offer(r, || {
            let mut b = rdata::svcb::SvcParamsBuilder::<Vec<u8>>::empty();
            for p in set {
                p.push(&mut b)?;
            }
            let params: rdata::svcb::SvcParams<Vec<u8>> = b.freeze().map_err(es)?;
            if https {
                rdata::Https::new(prio, target, params).map(Rd::Https).map_err(es)
            } else {
                rdata::Svcb::new(prio, target, params).map(Rd::Svcb).map_err(es)
            }
        });
    });
}

//------------ EDNS options --------------------------------------------------

/// Option value type used by the generator.
pub type OptVal = domain::base::opt::AllOptData<Octs, Nm>;

/// One EDNS option: code, reference option data, library value.
#[derive(Clone)]
pub struct OptItem {
    pub tag: String,
    pub code: u16,
    /// reference OPTION-DATA (without code and length)
    pub data: Vec<u8>,
    /// the library value (None: the constructor refused, see `refused`)
    pub val: Option<OptVal>,
    pub refused: Option<String>,
    /// true if `data` longer than 65535 (no wire representation)
    pub unrepresentable: bool,
}

fn opt_item(tag: &str, code: u16, data: Vec<u8>, ctor: impl FnOnce() -> Result<OptVal, String>) -> OptItem {
    let (val, refused) = match guard(ctor) {
        Ok(Ok(v)) => (Some(v), None),
        Ok(Err(e)) => (None, Some(e)),
        Err(p) => (None, Some(format!("PANIC: {p}"))),
    };
    OptItem { tag: tag.to_string(), code, unrepresentable: data.len() > 65535, data, val, refused }
}

/// Reference encoding of a client-subnet option (RFC 7871 §6): the address
/// is truncated to the source prefix; prefixes above the address length
/// are clamped (the library's constructor documents the same clamping).
fn subnet_wire(src: u8, scope: u8, addr: &[u8]) -> Vec<u8> {
    let max = (addr.len() * 8) as u8;
    let (src, scope) = (src.min(max), scope.min(max));
    let nbytes = (src as usize).div_ceil(8);
    let mut a = addr[..nbytes].to_vec();
    if src % 8 != 0 {
        let last = a.len() - 1;
        a[last] &= 0xFFu8 << (8 - src % 8);
    }
    let mut out = vec![0, if addr.len() == 4 { 1 } else { 2 }, src, scope];
    out.extend(a);
    out
}

/// Every EDNS option type with boundary values.
pub fn opt_items(tier: Tier) -> Vec<OptItem> {
    use domain::base::iana::{ExtendedErrorCode, OptionCode};
    use domain::base::opt::*;
    use octseq::str::Str;
    let mut v = Vec::new();
    let compact = tier == Tier::Compact;
    // DAU / DHU / N3U (RFC 6975): lists of one-octet algorithm codes
    let alg_lists: Vec<Vec<u8>> = if compact {
        vec![vec![8, 13]]
    } else {
        vec![vec![], vec![8], vec![8, 13], vec![0, 1, 255], fill(255, 1), fill(256, 2)]
    };
    for l in &alg_lists {
        let l2 = l.clone();
        v.push(opt_item(&format!("dau{}", l.len()), 5, l.clone(), move || {
            Dau::<Octs>::from_sec_algs(l2.iter().map(|a| SecurityAlgorithm::from_int(*a))).map(OptVal::Dau).map_err(es)
        }));
        let l2 = l.clone();
        v.push(opt_item(&format!("dhu{}", l.len()), 6, l.clone(), move || {
            Dhu::<Octs>::from_sec_algs(l2.iter().map(|a| SecurityAlgorithm::from_int(*a))).map(OptVal::Dhu).map_err(es)
        }));
        let l2 = l.clone();
        v.push(opt_item(&format!("n3u{}", l.len()), 7, l.clone(), move || {
            N3u::<Octs>::from_sec_algs(l2.iter().map(|a| SecurityAlgorithm::from_int(*a))).map(OptVal::N3u).map_err(es)
        }));
        if !compact {
            let l2 = l.clone();
            v.push(opt_item(&format!("dau{}(from_octets)", l.len()), 5, l.clone(), move || {
                Dau::<Octs>::from_octets(l2).map(OptVal::Dau).map_err(es)
            }));
        }
    }
    // CHAIN
    for n in (Menus { tier }).names(1) {
        let nm = n.name();
        v.push(opt_item(&format!("chain:{}", n.tag), 13, n.wire(), move || Ok(OptVal::Chain(Chain::new(nm)))));
    }
    // COOKIE: client only, client + server of 8, 16, 32 octets
    let srv_lens: Vec<Option<usize>> = if compact { vec![None, Some(16)] } else { vec![None, Some(8), Some(9), Some(16), Some(31), Some(32), Some(7), Some(33)] };
    for sl in srv_lens {
        let client: [u8; 8] = [1, 2, 3, 4, 5, 6, 7, 0xff];
        let mut data = client.to_vec();
        let server = sl.map(|n| fill(n, 30));
        if let Some(s) = &server {
            data.extend_from_slice(s);
        }
        v.push(opt_item(&format!("cookie:{sl:?}"), 10, data, move || {
            Ok(OptVal::Cookie(Cookie::new(
                cookie::ClientCookie::from_octets(client),
                server.map(|s| cookie::ServerCookie::from_octets(&s)),
            )))
        }));
    }
    // EXPIRE
    let mut exps: Vec<Option<u32>> = vec![None, Some(1)];
    if !compact {
        exps.extend([Some(0), Some(0x8000_0000), Some(u32::MAX)]);
    }
    for e in exps {
        v.push(opt_item(&format!("expire:{e:?}"), 9, e.map(|e| e.to_be_bytes().to_vec()).unwrap_or_default(), move || {
            Ok(OptVal::Expire(Expire::new(e)))
        }));
    }
    // EXTENDED ERROR
    let texts: Vec<Option<String>> = if compact {
        vec![None, Some("bad".into())]
    } else {
        vec![None, Some(String::new()), Some("x".into()), Some("é\"\\ ;".into()), Some("t".repeat(255)), Some("u".repeat(65533)), Some("v".repeat(65534))]
    };
    let codes: Vec<u16> = if compact { vec![1] } else { vec![0, 1, 255, 256, 49152, 65535] };
    for c in &codes {
        for t in &texts {
            if t.as_ref().map(|t| t.len() > 300).unwrap_or(false) && *c != 1 {
                continue;
            }
            let mut data = c.to_be_bytes().to_vec();
            if let Some(t) = t {
                data.extend_from_slice(t.as_bytes());
            }
            let (c2, t2) = (*c, t.clone());
            v.push(opt_item(&format!("ede:{c}:{:?}", t.as_ref().map(|t| t.len())), 15, data, move || {
                ExtendedError::<Octs>::new(
                    ExtendedErrorCode::from_int(c2),
                    t2.map(|t| Str::from_utf8(t.into_bytes()).expect("utf8")),
                )
                .map(OptVal::ExtendedError)
                .map_err(es)
            }));
        }
    }
    // TCP KEEPALIVE
    let mut kas: Vec<Option<u16>> = vec![None, Some(100)];
    if !compact {
        kas.extend([Some(0), Some(1), Some(255), Some(256), Some(65535)]);
    }
    for k in kas {
        v.push(opt_item(&format!("keepalive:{k:?}"), 11, k.map(|k| k.to_be_bytes().to_vec()).unwrap_or_default(), move || {
            Ok(OptVal::TcpKeepalive(TcpKeepalive::new(k.map(Into::into))))
        }));
    }
    // KEY TAG: list of 16-bit tags
    let tag_lens: Vec<usize> = if compact { vec![2] } else { vec![0, 1, 2, 3, 4, 254, 65534, 65535, 65536] };
    for n in tag_lens {
        let d = fill(n, 31);
        let d2 = d.clone();
        v.push(opt_item(&format!("keytag:{n}B"), 14, d, move || KeyTag::from_octets(d2).map(OptVal::KeyTag).map_err(es)));
    }
    // NSID, PADDING, unknown codes: opaque octets
    let op_lens: Vec<usize> = if compact { vec![0, 3] } else { vec![0, 1, 255, 65535, 65536] };
    for n in &op_lens {
        let d = fill(*n, 32);
        let d2 = d.clone();
        v.push(opt_item(&format!("nsid:{n}B"), 3, d.clone(), move || Nsid::from_octets(d2).map(OptVal::Nsid).map_err(es)));
        let d2 = d.clone();
        v.push(opt_item(&format!("padding:{n}B"), 12, d.clone(), move || Padding::from_octets(d2).map(OptVal::Padding).map_err(es)));
        for code in if compact { vec![65001u16] } else { vec![0u16, 4, 16, 65001, 65535] } {
            let d2 = d.clone();
            v.push(opt_item(&format!("code{code}:{n}B"), code, d.clone(), move || {
                UnknownOptData::new(OptionCode::from_int(code), d2).map(OptVal::Other).map_err(es)
            }));
        }
    }
    // CLIENT SUBNET
    let a4 = [192u8, 0, 2, 0xff];
    let mut a6 = [0u8; 16];
    for (i, b) in a6.iter_mut().enumerate() {
        *b = 0xf0 | i as u8;
    }
    let p4: Vec<u8> = if compact { vec![24] } else { vec![0, 1, 7, 8, 9, 24, 31, 32, 33, 255] };
    let p6: Vec<u8> = if compact { vec![56] } else { vec![0, 1, 56, 64, 127, 128, 129, 255] };
    let scopes: Vec<u8> = if compact { vec![0] } else { vec![0, 1, 255] };
    for sc in &scopes {
        for p in &p4 {
            let (p, sc) = (*p, *sc);
            v.push(opt_item(&format!("subnet4:{p}/{sc}"), 8, subnet_wire(p, sc, &a4), move || {
                Ok(OptVal::ClientSubnet(ClientSubnet::new(p, sc, std::net::IpAddr::V4(Ipv4Addr::from(a4)))))
            }));
        }
        for p in &p6 {
            let (p, sc) = (*p, *sc);
            v.push(opt_item(&format!("subnet6:{p}/{sc}"), 8, subnet_wire(p, sc, &a6), move || {
                Ok(OptVal::ClientSubnet(ClientSubnet::new(p, sc, std::net::IpAddr::V6(Ipv6Addr::from(a6)))))
            }));
        }
    }
    v
}

/// Reference OPT RDATA of a list of options.
pub fn opt_wire(items: &[&OptItem]) -> Vec<u8> {
    let mut out = Vec::new();
    for it in items {
        out.extend_from_slice(&it.code.to_be_bytes());
        out.extend_from_slice(&(it.data.len() as u16).to_be_bytes());
        out.extend_from_slice(&it.data);
    }
    out
}

/// OPT record data: empty, every option alone, all small options together
/// (forward and reverse), and pairs that fill the RDATA to 65535 / 65536.
fn gen_opt(m: &Menus, s: &mut Sink) {
    use domain::base::opt::Opt;
    let items = opt_items(m.tier);
    let usable: Vec<&OptItem> = items.iter().filter(|i| i.val.is_some()).collect();
    let mut lists: Vec<Vec<&OptItem>> = vec![vec![]];
    for it in &usable {
        lists.push(vec![*it]);
    }
    let small: Vec<&OptItem> = usable.iter().cloned().filter(|i| i.data.len() <= 300).collect();
    lists.push(small.clone());
    let mut rev = small.clone();
    rev.reverse();
    lists.push(rev);
    if m.tier != Tier::Compact {
        // two options whose sum crosses the 65535 boundary
        let pad = |n: usize| usable.iter().cloned().find(|i| i.code == 12 && i.data.len() == n);
        if let (Some(big), Some(one), Some(zero)) = (pad(65535), pad(1), pad(0)) {
            lists.push(vec![zero, big]); // 4 + 65539
            lists.push(vec![one, one, one]);
            let _ = big;
        }
        // exactly 65535: 4+255 + 4+n  -> n = 65272
        let nsid255 = usable.iter().cloned().find(|i| i.code == 3 && i.data.len() == 255);
        if let Some(n255) = nsid255 {
            lists.push(vec![n255, n255]);
        }
    }
    for list in lists {
        if !s.want() {
            continue;
        }
        let mut r = Ref::new();
        r.note(format!("opts=[{}]", list.iter().map(|i| i.tag.as_str()).collect::<Vec<_>>().join(";")));
        r.lit(&opt_wire(&list));
        s.offer(r, || {
            let mut o = Opt::<Vec<u8>>::empty();
            for it in &list {
                o.push(it.val.as_ref().unwrap()).map_err(es)?;
            }
            Ok(Rd::Opt(o))
        });
    }
    // filler to exact sizes through Opt::from_octets / push of unknown data
    if m.tier != Tier::Compact {
        for total in [65535usize, 65536] {
            if !s.want() {
                continue;
            }
            let mut r = Ref::new();
            r.note(format!("single-unknown-option-filling-{total}"));
            let d = fill(total - 4, 40);
            r.lit(&[0xfd, 0xe9]);
            r.lit(&((total - 4) as u16).to_be_bytes());
            r.lit(&d);
            if total - 4 > 65535 {
                r.unrepresentable = Some("option longer than 65535".into());
            }
            s.offer(r, || {
                let mut o = Opt::<Vec<u8>>::empty();
                let u = domain::base::opt::UnknownOptData::new(domain::base::iana::OptionCode::from_int(0xfde9), d).map_err(es)?;
                o.push(&u).map_err(es)?;
                Ok(Rd::Opt(o))
            });
        }
    }
}
