use domain::base::*;
use domain::rdata::AllRecordData;
use domain::base::name::ParsedName;
fn main() {
    let h = std::env::args().nth(1).unwrap();
    let msg = mc::unhex(&h);
    let m = Message::from_slice(&msg).unwrap();
    for r in m.sections().unwrap().3 {
        match r {
            Ok(r) => {
                println!("owner {} type {} rdlen {}", r.owner(), r.rtype(), r.rdlen());
                match r.to_any_record::<AllRecordData<_, ParsedName<_>>>() {
                    Ok(rec) => { println!("rec {:?}", rec); println!("eq {}", rec == rec); println!("data eq {}", rec.data() == rec.data()); }
                    Err(e) => println!("rd err {e}"),
                }
            }
            Err(e) => println!("err {e}"),
        }
    }
}
