#!/bin/bash
# tools/thorough_all.sh [Cxx...] - runs the thorough tier of the given checks (default: all, cheapest first) in the
# current directory's copy of /verif and prints one line each plus the first violation lines. Meant to be started
# through tools/slot_run.py so that /verif/target, /verif/evidence and /repo stay free. Not part of any registered check.
cs=${@:-C16 C06 C20 C11 C05 C03 C02 C04 C08 C18 C19 C10 C14 C13 C17 C09 C07 C12 C15 C01}
for c in $cs; do
  start=$(date +%s)
  out=$(./check $c --tier thorough 2>&1); code=$?
  echo "$c exit=$code $(( $(date +%s) - start ))s $(echo "$out" | grep -E "^$c thorough" | sed 's/; states.*//') $(echo "$out" | grep -cE '^VIOLATION') violations"
  echo "$out" | grep -E "^VIOLATION|^  class|MACHINERY" | head -6
done
