#!/bin/bash
# Runs every registered check's quick (or $1) tier on /repo as it is and prints one line each.
tier=${1:-quick}
cd "$(dirname "$0")/.."
for c in $(python3 -c "import json;print(' '.join(x['property_id'] for x in json.load(open('MANIFEST.json'))['checks']))"); do
  start=$(date +%s)
  out=$(./check $c --tier $tier 2>&1); code=$?
  echo "$c exit=$code $(( $(date +%s) - start ))s $(echo "$out" | grep -E "^$c $tier" | sed 's/; states.*//') $(echo "$out" | grep -cE '^VIOLATION') violations"
done
