#!/usr/bin/env python3
"""tools/confirm_seed.py [--jobs N] <seed-name>... | --all | --missing

Independently confirms a seeded change kept under /verif/seeded/<name>/:
  1. a scratch worktree of /repo's HEAD is created under /root/scratch/confirm/
     (never /repo itself, never /verif);
  2. the demonstration passes on the unchanged tree;
  3. patch.diff applies, the tree still compiles and the pinned suite
     (`cargo test --workspace --no-fail-fast --offline`) passes with 171 tests;
  4. the demonstration fails with the change.
The verdict goes to seeded/<name>/confirmation.json; the worktree and its
build output are removed again.  Nothing here is part of a registered check."""
import json, os, re, shutil, subprocess, sys, time
from concurrent.futures import ThreadPoolExecutor
VERIF = os.path.dirname(os.path.dirname(os.path.abspath(__file__)))
ROOT = "/root/scratch/confirm"

def sh(cmd, cwd=None, env=None, timeout=3600):
    e = dict(os.environ); e.update(env or {})
    try:
        r = subprocess.run(cmd, shell=True, text=True, cwd=cwd, env=e, timeout=timeout,
                           stdout=subprocess.PIPE, stderr=subprocess.STDOUT)
        return r.returncode, r.stdout
    except subprocess.TimeoutExpired as x:
        return 124, (x.stdout or "") + "\nTIMEOUT"

def demo_cmd(meta):
    c = meta["demo_cmd"]
    # drop "cp SEED/demo/x.rs tests/ &&" prefixes: the tool places the files itself
    parts = [p.strip() for p in c.split("&&")]
    parts = [p for p in parts if not p.startswith("cp ") and not p.startswith("mkdir ") and not p.startswith("cd ")]
    c = " && ".join(parts)
    c = re.sub(r"CARGO_TARGET_DIR=\S+\s+", "", c)      # the tool sets its own target dir
    c = re.sub(r"\s{2,}\(.*$", "", c)                  # trailing parenthetical remark
    return c

def confirm(name, slot):
    d = os.path.join(VERIF, "seeded", name)
    meta = json.load(open(os.path.join(d, "meta.json")))
    if meta.get("retired"):
        return {"seed": name, "property": meta.get("property"), "retired": meta["retired"], "confirmed": False}
    wt = os.path.join(ROOT, name)
    env = {"CARGO_TARGET_DIR": os.path.join(ROOT, f"target-{slot}"), "CARGO_NET_OFFLINE": "true",
           "RUST_BACKTRACE": "0"}
    out = {"seed": name, "property": meta.get("property"), "when": time.strftime("%Y-%m-%dT%H:%M:%S")}
    sh(f"git -C /repo worktree remove --force {wt}"); shutil.rmtree(wt, ignore_errors=True)
    rc, o = sh(f"git -C /repo worktree add --detach {wt} HEAD")
    if rc != 0:
        out["error"] = "worktree: " + o[-300:]; return out
    try:
        out["repo_head"] = sh("git rev-parse --short HEAD", cwd=wt)[1].strip()
        cmd = demo_cmd(meta)
        sub = "examples" if "--example" in cmd else "tests"
        os.makedirs(os.path.join(wt, sub), exist_ok=True)
        for f in os.listdir(os.path.join(d, "demo")):
            src = os.path.join(d, "demo", f)
            if f.endswith(".rs"):
                shutil.copy(src, os.path.join(wt, sub, f))
            elif os.path.isdir(src):
                shutil.copytree(src, os.path.join(wt, sub, f), dirs_exist_ok=True)
            elif f != "RUN.md":
                shutil.copy(src, os.path.join(wt, sub, f))
        out["demo_cmd"] = cmd
        rc, o = sh(cmd, cwd=wt, env=env)
        out["demo_without_change"] = {"exit": rc, "tail": o[-400:] if rc != 0 else ""}
        rc, o = sh(f"git apply --3way {d}/patch.diff", cwd=wt)
        if rc != 0:
            rc, o = sh(f"git apply {d}/patch.diff", cwd=wt)
        out["patch_applies"] = rc == 0
        if rc != 0:
            out["error"] = "patch: " + o[-400:]; return out
        rc, o = sh(cmd, cwd=wt, env=env)
        out["demo_with_change"] = {"exit": rc, "tail": o[-600:]}
        # the demonstration is not part of the pinned suite: take it out again before running it
        for f in os.listdir(os.path.join(d, "demo")):
            p = os.path.join(wt, sub, f)
            if os.path.isfile(p) and f.endswith(".rs"):
                os.remove(p)
        rc, o = sh("cargo test --workspace --no-fail-fast --offline", cwd=wt, env=env)
        res = re.findall(r"test result: (\w+)\. (\d+) passed; (\d+) failed", o)
        out["pinned_suite"] = {"exit": rc, "results": [f"{a}:{b}p/{c}f" for a, b, c in res],
                               "has_171": any(b == "171" and c == "0" for a, b, c in res),
                               "tail": o[-600:] if rc != 0 else ""}
        out["confirmed"] = (out["demo_without_change"]["exit"] == 0 and out["demo_with_change"]["exit"] not in (0, 124)
                            and rc == 0 and out["pinned_suite"]["has_171"])
    finally:
        sh(f"git -C /repo worktree remove --force {wt}"); shutil.rmtree(wt, ignore_errors=True)
    return out

def main():
    args = sys.argv[1:]
    jobs = 3
    if "--jobs" in args:
        i = args.index("--jobs"); jobs = int(args[i + 1]); del args[i:i + 2]
    allseeds = sorted(n for n in os.listdir(os.path.join(VERIF, "seeded"))
                      if os.path.exists(os.path.join(VERIF, "seeded", n, "meta.json")))
    if "--all" in args:
        names = allseeds
    elif "--missing" in args:
        names = [n for n in allseeds if not os.path.exists(os.path.join(VERIF, "seeded", n, "confirmation.json"))]
    else:
        names = args
    os.makedirs(ROOT, exist_ok=True)
    slots = list(range(jobs))
    def work(n):
        slot = slots.pop()
        try:
            r = confirm(n, slot)
        except Exception as x:  # noqa
            r = {"seed": n, "error": repr(x)}
        finally:
            slots.append(slot)
        json.dump(r, open(os.path.join(VERIF, "seeded", n, "confirmation.json"), "w"), indent=1)
        print(n, "CONFIRMED" if r.get("confirmed") else "RETIRED" if r.get("retired") else "NOT-CONFIRMED " + json.dumps({k: r[k] for k in r if k not in ("seed", "when")})[:700], flush=True)
        return r
    with ThreadPoolExecutor(jobs) as ex:
        rs = list(ex.map(work, names))
    for s in range(jobs):
        shutil.rmtree(os.path.join(ROOT, f"target-{s}"), ignore_errors=True)
    sh("git -C /repo worktree prune")
    bad = [r["seed"] for r in rs if not r.get("confirmed") and not r.get("retired")]
    print(f"confirmed {len(rs) - len(bad)}/{len(rs)}; not confirmed: {bad}")

if __name__ == "__main__":
    main()
