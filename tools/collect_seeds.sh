#!/bin/bash
# tools/collect_seeds.sh <prefix> <Cxx>...  : copies /tmp/<prefix>-Cxx/SEED{,2} to seeded/Cxx-<next letters>, removes the worktree
prefix=$1; shift
for p in "$@"; do
  for s in SEED SEED2; do
    src=/tmp/$prefix-$p/$s
    [ -f $src/patch.diff ] || { echo "no $src"; continue; }
    for l in a b c d e f g h i j k l m n o p q r s t u v w x y z; do [ -e /verif/seeded/$p-$l ] || break; done
    cp -r $src /verif/seeded/$p-$l; echo "$src -> seeded/$p-$l"
  done
  git -C /repo worktree remove --force /tmp/$prefix-$p 2>/dev/null; rm -rf /tmp/$prefix-$p /tmp/$prefix-$p-* /tmp/${prefix,,}-${p,,}*
done
git -C /repo worktree prune
