#!/usr/bin/env python3
"""tools/seed_table.py [letters]  - prints the DESIGN.md §10 table rows for seeds whose letter is in `letters`
(default g-z) from meta.json, detection.json and the git history of detection.json (first verdict = missed?)."""
import json, os, re, subprocess, sys
V = os.path.dirname(os.path.dirname(os.path.abspath(__file__)))
letters = sys.argv[1] if len(sys.argv) > 1 else "ghijklmnopqrstuvwxyz"
FM = set()
try:
    for l in open(os.path.join(V, "seeded", "FIRST_MISSED.txt")):
        if not l.startswith("#"): FM.update(l.split())
except Exception: pass
def first_sentence(s, n):
    s = re.sub(r"\s+", " ", s or "").strip().replace("|", "/")
    m = re.search(r"(?<=[a-z0-9\)])\. ", s)
    if m and m.start() < n: s = s[:m.start()]
    return s[:n] + ("…" if len(s) > n else "")
def verdict(j):
    for k, v in j.items():
        if isinstance(v, dict) and v.get("exit") == 1:
            cls = next((l.strip() for l in v.get("lines", []) if l.strip().startswith("class:")), "")
            cls = cls.replace("class:", "").strip().split(" (")[0].replace("|", "/")
            return k.split(":")[0], cls[:60]
    return None, ""
for d in sorted(os.listdir(os.path.join(V, "seeded"))):
    m = re.match(r"(C\d\d)-([a-z])$", d)
    if not m or m.group(2) not in letters: continue
    p = os.path.join(V, "seeded", d)
    try: meta = json.load(open(os.path.join(p, "meta.json")))
    except Exception: continue
    if meta.get("retired"): continue
    det = json.load(open(os.path.join(p, "detection.json"))) if os.path.exists(os.path.join(p, "detection.json")) else {}
    who, cls = verdict(det)
    # first committed verdict
    rel = f"seeded/{d}/detection.json"
    h = subprocess.run(["git", "-C", V, "log", "--diff-filter=A", "--format=%h", "--", rel], capture_output=True, text=True).stdout.split()
    first_missed = d in FM
    if h:
        try:
            j0 = json.loads(subprocess.run(["git", "-C", V, "show", f"{h[-1]}:{rel}"], capture_output=True, text=True).stdout)
            first_missed = first_missed or verdict(j0)[0] is None
        except Exception: pass
    summ = meta.get("summary") or meta.get("what") or meta.get("description") or ""
    needs = meta.get("needs_to_manifest") or meta.get("needs") or ""
    if who: c = (f"missed at first → {who} after strengthening" if first_missed else who) + (f" (`{cls}`)" if cls else "")
    else: c = "**missed**"
    print(f"| {d} | {first_sentence(summ, 120)} | {first_sentence(needs, 100)} | {c} |")
