#!/usr/bin/env python3
"""Generates /verif/MANIFEST.json from the table below (kept in one place so
the file is always schema-valid). Run: python3 tools/manifest.py"""
import json, os, subprocess

VERIF = os.path.dirname(os.path.dirname(os.path.abspath(__file__)))
ALL = [f"C{i:02d}" for i in range(1, 21)]

# id -> (category, technique, text, note, engine, design_ref)
CHECKS = {
 "C17": ("exploration", "flat exhaustive sweep of 2^32 cross-sections on the real Serial/Timestamp",
         "Every pair (base, c) for all 2^32 values c per base (2 bases quick, 14 thorough) is run through the real partial_cmp/operators/add/Timestamp and compared with RFC 1982 computed in u64; exhaustive within the cross-sections, which contain every branch pair of the implementation.",
         "Full 2^64 pair space is not swept; bases chosen at the boundaries (0, 2^31-1, 2^31, 2^32-1, ...).",
         "sweep", "DESIGN.md §3 C17"),
}

def main():
    hooks_commits = []
    p = os.path.join(VERIF, "hooks_commits.txt")
    if os.path.exists(p):
        hooks_commits = [l.split()[0] for l in open(p) if l.strip() and not l.startswith("#")]
    checks = []
    for pid in ALL:
        if pid not in CHECKS:
            continue
        cat, tech, text, note, engine, ref = CHECKS[pid]
        checks.append({
            "property_id": pid,
            "quick_cmd": f"./check {pid} --tier quick",
            "thorough_cmd": f"./check {pid} --tier thorough",
            "evidence_file": f"/verif/evidence/{pid}.json",
            "replay_cmd_template": f"./check {pid} --replay {{path}}",
            "engine": engine,
            "level_claimed": {"category": cat, "text": text, "design_ref": ref},
            "level_note": note,
            "technique": tech,
        })
    na = [{"property_id": pid, "reason": NOT_BUILT.get(pid, "check not built yet; bounded exhaustive exploration applies to it (DESIGN.md §3), it is simply not claimed until its harness exists")}
          for pid in ALL if pid not in CHECKS]
    m = {
        "version": 1,
        "setup_cmd": "./check build-all",
        "hooks": {
            "guard": "cargo feature verif-hooks (off by default)",
            "enable": "harness crates depend on domain with features=[..., \"verif-hooks\"] where a hook is needed; no hook is needed by the checks registered so far" if not hooks_commits else "harness crates /verif/mc and /verif/mc-loom depend on domain = { path = \"/repo\", features = [..., \"verif-hooks\"] }",
            "baseline_off_cmd": "cd /repo && cargo test --workspace --no-fail-fast --offline",
            "source_commits": hooks_commits,
            "add_only": True,
        },
        "engines": [
            {"name": "sweep", "path": "/verif/mc/src/bin/c17.rs", "serves_properties": ["C17"], "kind_free_text": "flat exhaustive numeric sweep, 16 cores"},
            {"name": "gramx", "path": "/verif/mc/src/lib.rs", "serves_properties": [p for p in ALL if p in CHECKS and CHECKS[p][4] == "gramx"], "kind_free_text": "grammar-exhaustive input enumeration against the real code with independent oracles"},
            {"name": "seqx", "path": "/verif/mc/src/lib.rs", "serves_properties": [p for p in ALL if p in CHECKS and CHECKS[p][4] == "seqx"], "kind_free_text": "explicit-state BFS over operation sequences on the real objects, reference model as oracle"},
            {"name": "envx", "path": "/verif/mc/src/envx.rs", "serves_properties": [p for p in ALL if p in CHECKS and CHECKS[p][4] == "envx"], "kind_free_text": "stateless deviation-bounded exploration of environment choice sequences (mock peers, paused clock)"},
        ],
        "checks": checks,
        "not_applicable": na,
        "notes": "All verdicts come from exhaustive enumeration of a stated finite space on the real code; see DESIGN.md. Exit 2 = machinery failure, never a verdict. known_findings.jsonl lists genuine unrepaired defects (exit 0 with KNOWN-FINDING lines) and fixed: entries.",
    }
    json.dump(m, open(os.path.join(VERIF, "MANIFEST.json"), "w"), indent=1)
    print("wrote MANIFEST.json with", len(checks), "checks")

NOT_BUILT = {}
if __name__ == "__main__":
    main()
