#!/usr/bin/env python3
"""Generates /verif/MANIFEST.json from the table below (kept in one place so
the file is always schema-valid). Run: python3 tools/manifest.py"""
import json, os, subprocess

VERIF = os.path.dirname(os.path.dirname(os.path.abspath(__file__)))
ALL = [f"C{i:02d}" for i in range(1, 21)]

# id -> (category, technique, text, note, engine, design_ref)
CHECKS = {
 "C01": ("exploration", "grammar-exhaustive enumeration of wire messages, each run twice through the complete read-side script on the real code under catch_unwind + hang watchdog",
         "Every message derivable from the token grammar (header-count variants x 1-3 items x per-field menus: ~35 record types with every internal length field short/long, rdlen exact/-1/+1/0/0xFFFF, names with pointers to every landmark incl. self/forward/chained/into-rdata) plus every raw body over 9 symbols to length 5 (quick) / 7 (thorough) and every truncation of short messages is run through header, all section/record iterators, AllRecordData and AllOptData parsing, canonical_name, is_answer, copy_records, dig/zone display, Label::iter_slice from every offset and the XFR interpreter; oracle: no panic, terminates (watchdog), identical transcript on second traversal, returned names equal an independent decompression and are usable.",
         "Octet values outside the menus and messages with more than three items are not covered; out-of-bounds reads behind unsafe are only caught if they panic or change the transcript.",
         "gramx", "DESIGN.md §3 C01"),
 "C02": ("model_checking", "exhaustive enumeration of builder operation sequences on the real builders per target x compressor configuration, independent wire reader as oracle after every step",
         "Every operation sequence to depth 5 (quick) / 6 (thorough) over two alphabets (general: 2 questions, 9 records incl. shared suffixes, case variants, SRV, TXT, 255-octet names, OPT, direct jumps between all four sections, rewind, push-limit set at/above the current length and cleared; pad-focused: 16000/48000-octet records crossing 0x3FFF and 0xFFFF) on 16 target x compressor configurations (Vec, BytesMut, Array<100/600>, StreamTarget x none/Static/Tree/Hash). No state merging (compressor tables depend on history). After every step an independent reader checks header counts == successful pushes, items/order/sections, RDATA with names decompressed independently, pointers backwards and < 0x4000, stream length prefix, failed push leaves octets unchanged, and the library's own reader agrees.",
         "Whether a push is refused (space or limit) is taken from the implementation; messages beyond 65535 octets on unbounded targets are outside the property's domain and not explored.",
         "seqx", "DESIGN.md §3 C02"),
 "C03": ("model_checking", "explicit-state BFS to fixpoint over the abstract state graph of the real NameBuilder + grammar-exhaustive constructor/slicing enumeration",
         "Part 1 explores ALL reachable abstract builder states (len, open-label length) - a complete fixpoint, not a depth bound - executing every operation of the menu on the real NameBuilder in every state (twice, with different fill octets) against an abstract RFC-limit model and an independent wire validator. Part 2 enumerates every presentation string over 11 symbols to length 6/7, boundary-length families, every wire string from a label-length menu, raw octet strings, every index pair for slice/range/split/truncate, and chain() over a length menu, against an independent validator and text/wire round trips.",
         "Builder control flow depends only on (len, open-label length) (checked per transition); strings with unescaped space/quote/'['/non-ASCII are only required to yield valid names.",
         "seqx", "DESIGN.md §3 C03"),
 "C05": ("exploration", "exhaustive enumeration of per-type products of field boundary menus (shared generator mc::rgen with an independent reference wire form) through compose/parse/canonical/rdlen and six message configurations, plus per-type RDATA byte grammars",
         "41 generators (every record type incl. SVCB/HTTPS with every SvcParam, IPSECKEY gateways, OPT, unknown types; several constructors per type), full product of per-field boundary menus (u8/u16/u32 boundaries, 4+ names incl. 255 octets, octet fields empty/1/255/type maximum/maximum+1, bitmaps, charstrs): 53 k values quick, 802 k thorough. Per value: compose_rdata == reference encoding written from the RFC layouts; rdlen/compose_len == octets written; canonical form lower-cases exactly the RFC 4034 6.2 + RFC 6840 5.1 names (table in the harness); parse(compose(v)) == v stand-alone, via ZoneRecordData, and in six message configurations (plain/Static/Tree/Hash compressor x names already present or not) where the independent reader checks RDLENGTH and that only RFC 3597 s.4 types carry pointers. 65 byte grammars (every internal length short/exact/long, names literal/pointer/bad): accepted RDATA must satisfy parse(compose(parse(b))) == parse(b). Every EDNS option through OptBuilder/AllOptData.",
         "Constructor refusals are expected results; values whose RDATA leaves no room for header+owner skip the message check; compose(parse(b)) == b is not demanded.",
         "gramx", "DESIGN.md §3 C05"),
 "C07": ("exploration", "exhaustive enumeration of byte strings and token strings (totality) and of all layout renderings of small logical zone files (metamorphic relation) through the real zone-file reader",
         "Totality: every byte string over 14 symbols to length 5 (quick) / 6 (thorough) behind 5 context prefixes, and every string over 26 tokens to depth 5/6 behind 3 prefixes, read to the end with next_entry under catch_unwind and a hang watchdog; an error must carry an in-range position, every returned record must be well-formed wire, a second reader (allow_invalid) must agree. Layout independence: every rendering of every logical file of 1-2 (thorough 3) records from per-slot menus (owner absolute/relative/escaped/inherited, class/TTL explicit/inherited/$TTL in both orders, separators, parenthesised continuations at every token gap, comments/blank lines/CRLF, quoted vs escaped tokens, $ORIGIN changes); a reference interpreter in the harness (RFC 1035 5.1, RFC 2308 4) prunes renderings whose meaning differs; the reader must return exactly the logical records (hand-encoded wire).",
         "Quoted domain names, escaped class/type words and files without final newline are not in the rewrite relation (RFC 1035 leaves them open); thorough token depth is 6.",
         "gramx", "DESIGN.md §3 C07"),
 "C08": ("model_checking", "exhaustive enumeration of all zone contents x all histories of fixed shapes x all queries on the real in-memory zone, independent RFC 1034/4592 resolver as oracle",
         "All 2,624 zone contents over a 7-name tree (apex, a, b.a, *.a, c, d.c, *) with kinds none/A/TXT/A+TXT/CNAME/NS/NS+DS(+glue), reached through every history shape: ZoneBuilder in two insertion orders, parsed::Zonefile, ZoneUpdater full replacement from a bare and from a busy zone, write interface from a bare zone and via remove_all, and from every single-slot neighbour content a ZoneUpdater edit, a write-interface edit, and a write-interface edit after an abandoned (rolled back) attempt; every (qname,qtype) over 16 names x 6 types plus walk() is compared with a reference resolver written over plain data (exact/CNAME/NODATA incl. ENT/referral with NS, DS, glue/wildcard synthesis/NXDOMAIN, SOA in negative answers, AA).",
         "HashMap order not owned (set comparison, no qtype ANY); CNAMEs are not chased; updater histories run over contents without NS/DS/CNAME because the updater has no cut/CNAME notion (known finding, witnessed); history-dependent mismatches are classified by structural cause and only the listed causes with their implied symptom are known findings.",
         "seqx", "DESIGN.md §3 C08"),
 "C09": ("model_checking", "explicit-state BFS over operation-level interleavings (replay on the real zone) + loom preemption-bounded exploration of real-thread schedules on the real locks via the verif-hooks seam",
         "(a) BFS to depth 7 (quick) / 8 (thorough) over every interleaving of writer steps (open, update x3 names, remove, remove_all, commit, drop; thorough also commit-keeping-the-node-handle and writes through it) with two readers' acquire/observe/release; each history replayed on a fresh real zone; states deduplicated on (model state, sorted Debug rendering of the zone incl. version vectors). Oracles: a held reader's observation vector (6 queries + walk) never changes; a reader acquired after commit walks exactly the last committed content and serves no data outside it; abandoned work is never visible. (b) loom 0.7.2 DPOR over three 3-thread scenarios (reader|writer|reader, reader|writer|writer, reader|abandoning writer|writer) on the REAL parking_lot/tokio locks and tree, every lock acquisition of zonetree::in_memory being a scheduling point (feature verif-hooks), preemption bound 2 (quick, 26k schedules) / 3 (thorough, 1.2M schedules). Oracles: reader observation stable and equal to one committed version, writers never overlap, final content is a serial outcome, no deadlock.",
         "loom sees scheduling points at lock acquisitions only (the code has no other shared mutable state besides SeqCst atomics of the single writer); the loom tree is a single chain so unowned HashMap iteration order cannot influence schedules; memory-model effects below SeqCst are not modelled. Answer-kind correctness is C08's business.",
         "seqx", "DESIGN.md §3 C09"),
 "C13": ("exploration", "exhaustive enumeration of all zones over a small name universe x NSEC/NSEC3 configurations through the real SortedRecords + generate_nsecs/generate_nsec3s, independent chain builder and coverage predicate as oracle",
         "All zones over an 11-name universe (cuts, glue, occluded data, nested cut, shared and two-level ENTs, wildcard, case twins, multi-window bitmaps, equal-RDATA unknown types, out-of-zone records): 82,944 zones quick / 746,496 thorough, x NSEC (DNSKEY assumed on/off) and 14/30 NSEC3 configs (salt x iterations x opt-out modes). Oracle written from RFC 4034/4035/5155 in the harness: own canonical order, cut/glue/occlusion predicates, ENT derivation, iterated SHA-1 + base32hex, bitmap codec; exact owner set, order, next pointers, bitmaps; and for every absent (name,type) over a 64-name closure x 12 types a matching-without-bit or covering record (incl. wrap-around, closest-encloser/next-closer for NSEC3, opt-out flag).",
         "ring SHA-1 as primitive; TTL values and NSEC3PARAM contents are not asserted (not in the property); an ENT derived only from opted-out delegations may be present or absent (RFC 5155 7.1).",
         "gramx", "DESIGN.md §3 C13"),
 "C14": ("fault_enumeration", "exhaustive enumeration of every fault of an adversary menu at every position of every upstream response of signed test hierarchies, through the real validator, with an independent zone model and denial-proof checker as oracle",
         "Five signed hierarchies root -> tld. -> zone.tld. (NSEC, NSEC3, insecure delegation under NSEC and NSEC3, NSEC3 opt-out; each with wildcard, ENT, CNAMEs) built with the library's signer; a deterministic upstream answers from the authentic data; 17 query kinds. For each (scenario, query) every fault of the menu (drop/replace/bit-flip RRset, RRSIG (all 13 fields), key, DS, proof records; expired / not-yet-valid re-signing; TTL 0 and raised; swapped NSEC/NSEC3; hostile NSEC3 owner labels; whole-response replacement; injected unsigned RRsets; forged child zone with same key tag) is applied at every position of the validated answer and of every DS/DNSKEY response, quick: all single faults on 4 scenarios + representative pairs (238 k evaluations); thorough: all singles on 5 scenarios + all pairs (5.3 M). Oracle: Secure (or AD) implies every RRset is authentic data with a currently valid authentic RRSIG and the negative claim is true with a complete proof; unmodified answers are Secure, Insecure below the insecure delegation, never Bogus; no panic, upstream-call budget, no hang.",
         "The validator reads the wall clock: signatures are made around the real time and expiry faults are produced by re-signing; ring as trusted crypto primitive; C12 decides the signer's correctness separately.",
         "gramx", "DESIGN.md §3 C14"),
 "C15": ("model_checking", "deviation-bounded exhaustive exploration (envx) of environment-answer sequences on the real client transports over mock sockets, hand-polled under tokio's paused clock",
         "Every environment-answer sequence with <=2 (quick) / <=3 (thorough) deviations from 'deliver intact, in order' for 1-3 concurrent callers (two with the same question; plus a 6-caller recycled-slot case) on the real stream, dgram, dgram_stream and multi_stream transports: per quiescent point the mock may deliver any open request's answer, a wrong-ID/wrong-question/header-only/QR=0/stale/duplicate reply, short or split frames at every cut point, EOF, read/write errors, partial writes, cancellation, timer ticks, connect refusal. Oracle: every request completes exactly once; Ok(m) is byte-identical to a message the mock delivered for THAT caller (ID read back from the bytes the code wrote, question matches or header-only error); Err only with an environmental cause and, on tokio-clock transports, within the retry/timeout budget; TC over datagram leads to a stream attempt; no panic or livelock.",
         "stream.rs measures its response/idle timeout with std::time::Instant, so stream timeouts are not exercised (every stream scenario ends by answer, error or EOF); redundant and load_balancer are not covered (unowned rand-driven probing); tokio current-thread, futures polled by the harness.",
         "envx", "DESIGN.md §3 C15"),
 "C16": ("model_checking", "complete product enumeration through the real middleware stack + deviation-bounded exhaustive exploration (envx) of the real Dgram/Stream servers over mock sockets under a paused clock",
         "(a) full product of transport x EDNS size x configured limit x response size boundaries x OPT/question/layout variants through MandatoryMiddlewareSvc<EdnsMiddlewareSvc<CookiesMiddlewareSvc<svc>>>; (b) all environment-answer/service-completion sequences with <=3 (quick) / <=4 (thorough) deviations for 3 pipelined requests incl. malformed ones on the real DgramServer and StreamServer; (c) pipeline depth 1..16/64. Oracle: independent deframer/parser: framing, ID/question echo, exactly-once, size bound, TC iff dropped, liveness of other connections, no panic in any task.",
         "tokio current-thread FIFO scheduling with biased select! in the server code; mocks replace sockets; missing responses are excused on a connection the client or environment itself broke.",
         "envx", "DESIGN.md §3 C16"),
 "C18": ("exploration", "exhaustive enumeration of all strings over character-class alphabets through every decoder entry point and all chunkings, independent RFC 4648 codec as oracle",
         "Per codec (base64, base32hex, base16): every string to length 8/9-11/6 (quick; 10/10-13/8 thorough) over class alphabets through decode, Decoder::push char-by-char continuing after errors + finalize, SymbolConverter with every split into <=3 tokens, and the scanner route; an alphabet sweep of 395 characters in every position of a group; all octet strings over 5 values to length 5 (7), all 1-2 (3)-octet strings and lengths 6..40 through display/encode_string/encode_display and back; bounded-buffer decoders. Oracle: table-driven RFC 4648 codec written in the harness: accept iff well-formed (as each module documents: base64 padded, base32hex unpadded), equal octets, all entry points agree, encoders equal the RFC encoding, no panic.",
         "Non-zero trailing bits may be accepted or rejected (RFC 4648 3.5 MAY); only base32hex exists in the library.",
         "gramx", "DESIGN.md §3 C18"),
 "C17": ("exploration", "flat exhaustive sweep of 2^32 cross-sections on the real Serial/Timestamp",
         "Every pair (base, c) for all 2^32 values c per base (2 bases quick, 14 thorough) is run through the real partial_cmp/operators/add/Timestamp and compared with RFC 1982 computed in u64; exhaustive within the cross-sections, which contain every branch pair of the implementation.",
         "Full 2^64 pair space is not swept; bases chosen at the boundaries (0, 2^31-1, 2^31, 2^32-1, ...).",
         "sweep", "DESIGN.md §3 C17"),
 "C19": ("exploration", "grammar-exhaustive differential parsing of both codecs + exhaustive build-script enumeration on both builders, each output read by the other codec and by an independent reader",
         "Part 1: the C01 message grammar (1-2 items quick, 3 thorough; every truncation of short messages; every raw body over 9 symbols to length 5/6; 255-octet names in full and via pointers) parsed by BOTH codecs at every landmark offset as compressed name (NameBuf/RevNameBuf split and parse views, UnparsedName), flat name, question, record with opaque RDATA, character string and whole message (low-level API and MessageParser): both accept or both reject, equal content; documented intentional differences (pointer not before the segment start, pointer into the header, bounded-range parsers) are excused BY RULE with file:line citations and counted. Part 2: every build script over a 14-operation alphabet (questions, records over names with shared suffixes / case variants / a 255-octet name / a label with length-octet look-alikes, adaptive pads ending exactly at 16370..16396) to depth 4/5 on the established builder (TreeCompressor) and the new builder (RevNameBuf and &Name owners), plus a long-script family (head x 0..40 fillers x tail) crossing the compressor's 32-entry table; every output is read by the other codec and by mc::wire; every pointer < 0x4000, backwards, resolving to the intended name.",
         "Typed-RDATA strictness differences between the codecs (SRV/DNAME/RRSIG/NSEC name compression, empty TXT, short ZONEMD) are counted, not asserted; builder variety on the established side is TreeCompressor<Vec<u8>> only.",
         "gramx", "DESIGN.md §3 C19"),
 "C20": ("model_checking", "exhaustive enumeration of all cache histories of fixed shapes on the real cache::Connection over a scripted upstream under tokio's paused clock",
         "All histories fill.probe, fill.probe.probe, fill.cross-probe (thorough: also fill.fill'.probe.probe) over 3 questions x 16 flag sets (RD,CD,AD,DO) x 22 upstream answer kinds x 29/44 clock advances x 4 configurations, each on a fresh cache and runtime (4.2 M histories quick, 58.7 M thorough). Oracle: a response not fetched in this step must equal an earlier upstream response for the same question under the documented flag lattice, TTLs decremented by the elapsed time and never larger, not served beyond min(smallest TTL, max_validity, class bound), no DNSSEC records/AD to queries that did not ask, TC only with cache_truncated.",
         "cache.rs uses tokio::time::Instant (owned by the paused clock); moka is used without TTL/background threads; service at exactly elapsed == bound is accepted.",
         "envx", "DESIGN.md §3 C20"),
}

def main():
    hooks_commits = []
    p = os.path.join(VERIF, "hooks_commits.txt")
    if os.path.exists(p):
        hooks_commits = [l.split()[0] for l in open(p) if l.strip() and not l.startswith("#")]
    checks = []
    for pid in ALL:
        if pid not in CHECKS:
            continue
        cat, tech, text, note, engine, ref = CHECKS[pid]
        checks.append({
            "property_id": pid,
            "quick_cmd": f"./check {pid} --tier quick",
            "thorough_cmd": f"./check {pid} --tier thorough",
            "evidence_file": f"/verif/evidence/{pid}.json",
            "replay_cmd_template": f"./check {pid} --replay {{path}}",
            "engine": engine,
            "level_claimed": {"category": cat, "text": text, "design_ref": ref},
            "level_note": note,
            "technique": tech,
        })
    na = [{"property_id": pid, "reason": NOT_BUILT.get(pid, "check not built yet; bounded exhaustive exploration applies to it (DESIGN.md §3), it is simply not claimed until its harness exists")}
          for pid in ALL if pid not in CHECKS]
    m = {
        "version": 1,
        "setup_cmd": "./check build-all",
        "hooks": {
            "guard": "cargo feature verif-hooks (off by default)",
            "enable": "harness crates depend on domain with features=[..., \"verif-hooks\"] where a hook is needed; no hook is needed by the checks registered so far" if not hooks_commits else "harness crates /verif/mc and /verif/mc-loom depend on domain = { path = \"/repo\", features = [..., \"verif-hooks\"] }",
            "baseline_off_cmd": "cd /repo && cargo test --workspace --no-fail-fast --offline",
            "source_commits": hooks_commits,
            "add_only": True,
        },
        "engines": [
            {"name": "sweep", "path": "/verif/mc/src/bin/c17.rs", "serves_properties": ["C17"], "kind_free_text": "flat exhaustive numeric sweep, 16 cores"},
            {"name": "gramx", "path": "/verif/mc/src/lib.rs", "serves_properties": [p for p in ALL if p in CHECKS and CHECKS[p][4] == "gramx"], "kind_free_text": "grammar-exhaustive input enumeration against the real code with independent oracles"},
            {"name": "seqx", "path": "/verif/mc/src/lib.rs", "serves_properties": [p for p in ALL if p in CHECKS and CHECKS[p][4] == "seqx"], "kind_free_text": "explicit-state BFS over operation sequences on the real objects, reference model as oracle"},
            {"name": "loom", "path": "/verif/mc-loom/src/main.rs", "serves_properties": ["C09"], "kind_free_text": "loom 0.7.2 preemption-bounded DPOR over real threads of the real zone code; scheduling points from the verif-hooks lock seam"},
            {"name": "envx", "path": "/verif/mc/src/envx.rs", "serves_properties": [p for p in ALL if p in CHECKS and CHECKS[p][4] == "envx"], "kind_free_text": "stateless deviation-bounded exploration of environment choice sequences (mock peers, paused clock)"},
        ],
        "checks": checks,
        "not_applicable": na,
        "notes": "All verdicts come from exhaustive enumeration of a stated finite space on the real code; see DESIGN.md. Exit 2 = machinery failure, never a verdict. known_findings.jsonl lists genuine unrepaired defects (exit 0 with KNOWN-FINDING lines) and fixed: entries.",
    }
    json.dump(m, open(os.path.join(VERIF, "MANIFEST.json"), "w"), indent=1)
    print("wrote MANIFEST.json with", len(checks), "checks")

NOT_BUILT = {}
if __name__ == "__main__":
    main()
