#!/bin/bash
# tools/collect_benign.sh <prefix> <Cxx>...  : copies /tmp/<prefix>-Cxx/BENIGN{,2} to benign/Cxx-<next number>, removes the worktree
prefix=$1; shift
for p in "$@"; do
  for s in BENIGN BENIGN2; do
    src=/tmp/$prefix-$p/$s
    [ -f $src/patch.diff ] || { echo "no $src"; continue; }
    for l in 1 2 3 4 5 6 7 8 9; do [ -e /verif/benign/$p-$l ] || break; done
    cp -r $src /verif/benign/$p-$l; echo "$src -> benign/$p-$l"
  done
  git -C /repo worktree remove --force /tmp/$prefix-$p 2>/dev/null; rm -rf /tmp/$prefix-$p /tmp/$prefix-$p-* /tmp/$prefix-$p.*
done
git -C /repo worktree prune
