#!/usr/bin/env python3
"""tools/benign_prompts.py <prefix> [Cxx...] - writes /root/scratch/prompts/<prefix>-Cxx.md: the brief for an independent
sub-agent that makes LEGITIMATE changes (the property still holds) to test the checks for false alarms."""
import json, os, re, sys
V = os.path.dirname(os.path.dirname(os.path.abspath(__file__)))
prefix = sys.argv[1]; want = sys.argv[2:]
props = [json.loads(l) for l in open(os.path.join(V, "properties.jsonl"))]
def prior(pid):
    out = []
    for d in sorted(os.listdir(os.path.join(V, "benign"))):
        if not d.startswith(pid + "-"): continue
        try: m = json.load(open(os.path.join(V, "benign", d, "meta.json")))
        except Exception: continue
        s = re.sub(r"\s+", " ", m.get("summary") or "").strip()
        out.append("- " + s[:220])
    return "\n".join(out)
T = """# Task: make two LEGITIMATE changes to a Rust DNS library (the property below must still hold)

You are an independent maintainer. The library is NLnetLabs/domain (Rust DNS library). You work ONLY in your own scratch
git worktree of it: `{wt}` (already created; do not touch `/repo`, do not read or write anything under `/verif`).
Use `CARGO_TARGET_DIR={wt}-target` and `--offline` for every cargo command (no network; `CARGO_NET_OFFLINE=true`).
Shell start-up may print conda warnings; ignore them. NEVER use `git stash` (shared between worktrees): save a change with
`git diff > file`, undo with `git checkout -- .`, re-apply with `git apply file`.

## The property

```json
{prop}
```

## What to deliver

TWO different, realistic changes (BENIGN and BENIGN2) to code in or near the property's anchor files that a maintainer could
commit and under which **the property still holds for every input / sequence / schedule it quantifies over**. They exist to
find out whether an external, strict verification of the property raises false alarms, so make them as *observable* as a
legitimate change can be, for example:
- a refactoring that changes private representation, field/struct names, `Debug` output, internal call structure or the number
  of internal calls;
- a changed error *wording*, error variant detail, or log/trace text (not whether an error occurs);
- a different but equally valid choice where the property (or the RFC) leaves a choice: which of several valid encodings is
  produced (e.g. more or less name compression, different but legal ordering of a set, different IDs, different but legal
  TTL handling such as RFC 2308 minimum, different buffer growth, different internal slot allocation), different timing inside
  the allowed bounds, different capacity defaults that the property does not fix;
- a performance change (cache, fast path, pre-sizing) that is really equivalent - convince yourself by an exhaustive or
  systematic comparison against the old code on a small domain;
- a bug fix or tightening that makes behaviour *more* correct in an area the property does not constrain.
Stay clear of changes whose legitimacy is debatable: if the property text or the RFC it names forbids the new behaviour for
some input, it is not benign.

Other maintainers already delivered these for this property - **choose different ones**:

{prior}

Each change must compile without new warnings (default features AND the full offline feature set
`bytes,heapless,serde,smallvec,std,ring,net,tsig,zonefile,tokio-stream,unstable-new,unstable-client-cache,unstable-client-transport,unstable-crypto,unstable-crypto-sign,unstable-server-transport,unstable-sign,unstable-validator,unstable-xfr,unstable-zonetree`, and additionally with `verif-hooks` added to that list) and pass
`cargo test --workspace --no-fail-fast --offline` (171 unit tests + doc tests) and the feature-gated unit tests of the module you touched.
Do not change public signatures that outside code may call (adding is fine).

## Output layout (exactly this)

```
{wt}/BENIGN/patch.diff     `git diff` of the library change against HEAD
{wt}/BENIGN/meta.json      {{"property": "{pid}", "kind": "refactoring|wording|valid-choice|performance|tightening",
                           "summary": "<what was changed>", "why_property_still_holds": "<argument, and how you checked it>",
                           "what_a_strict_checker_might_trip_over": "<what observable thing changed>",
                           "files_changed": [...], "baseline_result": "<what you ran and saw>"}}
{wt}/BENIGN2/...           the same for the second change
```

Each patch must apply to a clean checkout of HEAD on its own (`git apply`). When done, leave the worktree's tracked files clean
(`git checkout -- .`), keep only BENIGN/ and BENIGN2/, and `rm -rf {wt}-target`. Report in three lines per change.
"""
for p in props:
    if want and p["id"] not in want: continue
    wt = f"/tmp/{prefix}-{p['id']}"
    open(f"/root/scratch/prompts/{prefix}-{p['id']}.md", "w").write(
        T.format(wt=wt, prop=json.dumps(p, indent=1), prior=prior(p["id"]) or "(none)", pid=p["id"]))
    print(wt)
