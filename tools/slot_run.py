#!/usr/bin/env python3
"""tools/slot_run.py <slot> <command...> - prepares slot <slot> (see slot_seed.py: a worktree of /repo's HEAD + a path-rewritten
copy of /verif's working tree under /root/scratch/slots/<slot>/) and runs the command in the slot's verif copy. Used for long
thorough runs that must not disturb /verif/target, /verif/evidence or /repo. Nothing here is part of a registered check."""
import os, subprocess, sys
sys.path.insert(0, os.path.dirname(os.path.abspath(__file__)))
import slot_seed
repo, verif = slot_seed.prepare(int(sys.argv[1]))
env = dict(os.environ); env.pop("VERIF_LOCK_HELD", None)
sys.exit(subprocess.run(" ".join(sys.argv[2:]), shell=True, cwd=verif, env=env).returncode)
