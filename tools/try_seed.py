#!/usr/bin/env python3
"""tools/try_seed.py <seed-dir-name> [property ids...] [--tier quick]
Applies /verif/seeded/<name>/patch.diff to /repo, runs the checks, reverts.
Prints per check: exit code and VIOLATION lines. Never leaves /repo dirty."""
import fcntl, json, os, subprocess, sys, time
VERIF = os.path.dirname(os.path.dirname(os.path.abspath(__file__)))
def sh(cmd, **kw):
    return subprocess.run(cmd, shell=True, text=True, stdout=subprocess.PIPE, stderr=subprocess.STDOUT, **kw)
def main():
    name = sys.argv[1]
    args = [a for a in sys.argv[2:] if not a.startswith("--")]
    tier = "quick"
    replay = None
    if "--replay" in sys.argv:  # run one stored case against the mutated tree instead of the whole check
        replay = sys.argv[sys.argv.index("--replay") + 1]
        args = [a for a in args if a != replay]
    if "--tier" in sys.argv:
        tier = sys.argv[sys.argv.index("--tier") + 1]
        args = [a for a in args if a != tier]
    d = os.path.join(VERIF, "seeded", name)
    meta = json.load(open(os.path.join(d, "meta.json")))
    props = args or [meta["property"]]
    # one mutated tree at a time, and no check builds from /repo while it is mutated
    os.makedirs(os.path.join(VERIF, "target"), exist_ok=True)
    lk = open(os.path.join(VERIF, "target", ".check.lock"), "w")
    fcntl.flock(lk, fcntl.LOCK_EX)
    os.environ["VERIF_LOCK_HELD"] = "1"
    st = sh("git -C /repo status --porcelain --untracked-files=no").stdout.strip()
    if st:
        print("refusing: /repo is dirty:\n" + st); sys.exit(2)
    r = sh(f"git -C /repo apply --3way {d}/patch.diff")
    if r.returncode != 0:
        print("patch does not apply:\n" + r.stdout); sh("git -C /repo reset -q && git -C /repo checkout -- ."); sys.exit(2)
    results = {}
    try:
        for p in props:
            t0 = time.time()
            r = sh(f"./check {p} --replay {replay}" if replay else f"./check {p} --tier {tier}", cwd=VERIF)
            if replay:
                print(r.stdout[-3000:]); continue
            open("/root/scratch/last_try_%s.log" % p, "w").write(r.stdout)
            viol = [l for l in r.stdout.splitlines() if l.startswith("VIOLATION") or l.startswith("  class:") or l.startswith("MACHINERY")]
            results[p] = {"exit": r.returncode, "wall_s": round(time.time() - t0, 1), "lines": viol[:12]}
            print(f"{name} vs {p} ({tier}): exit={r.returncode} in {results[p]['wall_s']}s")
            for l in viol[:12]:
                print("   ", l[:300])
    finally:
        sh("git -C /repo reset -q && git -C /repo checkout -- .")
        # restore evidence/replays produced on the mutated tree
        sh("git checkout -- evidence 2>/dev/null; git clean -fdq replays", cwd=VERIF)
    if replay:
        return
    out = os.path.join(d, "detection.json")
    old = json.load(open(out)) if os.path.exists(out) else {}
    old.update({f"{p}:{tier}": v for p, v in results.items()})
    json.dump(old, open(out, "w"), indent=1)
if __name__ == "__main__":
    main()
