#!/usr/bin/env python3
"""tools/slot_seed.py [--jobs N] [--tier quick] [--props C01,C02] <seed-name>... | --all | --missing

Runs the registered checks against seeded changes WITHOUT touching /repo:
each job owns a slot /root/scratch/slots/<k>/ holding
  repo/   a detached git worktree of /repo's HEAD (the seed is applied here)
  verif/  a copy of /verif's working tree (no target dirs) whose path
          constants (/repo, /verif) are rewritten to the slot
and its own cargo target dirs, so several seeds are tried in parallel while
/repo stays free for other work.  The verdict of each (seed, property) goes
to /verif/seeded/<seed>/detection.json exactly as tools/try_seed.py writes it.
Nothing here is part of a registered check: the registered commands always
build from /repo itself.  `--clean` removes all slots."""
import json, os, queue, shutil, subprocess, sys, threading, time
VERIF = os.path.dirname(os.path.dirname(os.path.abspath(__file__)))
ROOT = "/root/scratch/slots"
SEEDDIR = "seeded"   # --dir benign: legitimate changes that must NOT raise an alarm
REWRITE = ["mc/Cargo.toml", "mc/.cargo/config.toml", "mc-loom/Cargo.toml", "mc-loom/.cargo/config.toml",
           "mc/src/lib.rs", "mc/src/bin/c12.rs", "mc/src/bin/c14.rs"]

def sh(cmd, cwd=None, env=None, timeout=7200):
    e = dict(os.environ); e.update(env or {})
    e.pop("VERIF_LOCK_HELD", None)
    try:
        r = subprocess.run(cmd, shell=True, text=True, cwd=cwd, env=e, timeout=timeout,
                           stdout=subprocess.PIPE, stderr=subprocess.STDOUT)
        return r.returncode, r.stdout
    except subprocess.TimeoutExpired as x:
        o = x.stdout or ""
        if isinstance(o, bytes):
            o = o.decode(errors="replace")
        return 124, o + "\nTIMEOUT"

def prepare(slot):
    d = os.path.join(ROOT, str(slot))
    repo, verif = os.path.join(d, "repo"), os.path.join(d, "verif")
    os.makedirs(d, exist_ok=True)
    head = sh("git -C /repo rev-parse HEAD")[1].strip()
    if not os.path.isdir(os.path.join(repo, "src")):
        sh(f"git -C /repo worktree remove --force {repo}"); shutil.rmtree(repo, ignore_errors=True)
        rc, o = sh(f"git -C /repo worktree add --detach {repo} {head}")
        if rc != 0:
            raise RuntimeError("worktree: " + o)
    else:
        sh("git reset -q --hard && git clean -fdq -e target", cwd=repo)
        sh(f"git checkout -q --detach {head}", cwd=repo)
    os.makedirs(verif, exist_ok=True)
    ex = " ".join(f"--exclude=/{p}" for p in ["target", "target-loom", ".git", "seeded", "benign", "replays", "evidence"] + REWRITE)
    # no -t: a file that differs (by checksum) arrives with the mtime of the copy, so cargo always sees it as newer
    # than the slot's last build (with -a an edit made in /verif while the slot was building kept its older mtime and
    # the slot went on using a stale binary)
    sh(f"rsync -rlpD --checksum --delete {ex} {VERIF}/ {verif}/")
    for sub in ("replays", "evidence"):
        os.makedirs(os.path.join(verif, sub), exist_ok=True)
    for p in REWRITE:
        src = open(os.path.join(VERIF, p)).read()
        new = src.replace('"/verif/target', f'"{verif}/target').replace('"/repo', f'"{repo}')
        new = new.replace('VERIF_DIR: &str = "/verif"', f'VERIF_DIR: &str = "{verif}"')
        dst = os.path.join(verif, p)
        os.makedirs(os.path.dirname(dst), exist_ok=True)
        if not os.path.exists(dst) or open(dst).read() != new:
            open(dst, "w").write(new)
    shutil.copy(os.path.join(VERIF, "mc", "Cargo.lock"), os.path.join(verif, "mc", "Cargo.lock"))
    return repo, verif

def try_one(slot, name, props, tier):
    repo, verif = prepare(slot)
    d = os.path.join(VERIF, SEEDDIR, name)
    meta = json.load(open(os.path.join(d, "meta.json")))
    ps = props or [meta["property"]]
    rc, o = sh(f"git apply --3way {d}/patch.diff", cwd=repo)
    if rc != 0:
        return {p: {"exit": 2, "lines": ["patch does not apply: " + o[-300:]]} for p in ps}
    res = {}
    try:
        for p in ps:
            t0 = time.time()
            sh("rm -rf replays/* evidence/*", cwd=verif)
            rc, o = sh(f"./check {p} --tier {tier}", cwd=verif)
            viol = [l for l in o.splitlines() if l.startswith("VIOLATION") or l.startswith("  class:") or l.startswith("MACHINERY")]
            res[p] = {"exit": rc, "wall_s": round(time.time() - t0, 1), "lines": [l[:300] for l in viol[:12]], "via": "slot"}
            os.makedirs("/root/scratch/slotlogs", exist_ok=True)
            open(f"/root/scratch/slotlogs/{name}_{p}.log", "w").write(o)
    finally:
        sh("git reset -q --hard", cwd=repo)
    out = os.path.join(d, "detection.json")
    old = json.load(open(out)) if os.path.exists(out) else {}
    old.update({f"{p}:{tier}": v for p, v in res.items()})
    json.dump(old, open(out, "w"), indent=1)
    return res

def main():
    a = sys.argv[1:]
    if "--clean" in a:
        for k in os.listdir(ROOT) if os.path.isdir(ROOT) else []:
            sh(f"git -C /repo worktree remove --force {ROOT}/{k}/repo")
        shutil.rmtree(ROOT, ignore_errors=True); sh("git -C /repo worktree prune"); return
    global SEEDDIR
    jobs, tier, props = 4, "quick", None
    base = 0
    if "--slot-base" in a:
        i = a.index("--slot-base"); base = int(a[i + 1]); del a[i:i + 2]
    if "--dir" in a:
        i = a.index("--dir"); SEEDDIR = a[i + 1]; del a[i:i + 2]
    if "--jobs" in a:
        i = a.index("--jobs"); jobs = int(a[i + 1]); del a[i:i + 2]
    if "--tier" in a:
        i = a.index("--tier"); tier = a[i + 1]; del a[i:i + 2]
    if "--props" in a:
        i = a.index("--props"); props = a[i + 1].split(","); del a[i:i + 2]
    allseeds = sorted(x for x in os.listdir(os.path.join(VERIF, SEEDDIR)) if os.path.exists(os.path.join(VERIF, SEEDDIR, x, "meta.json")))
    if "--all" in a:
        names = allseeds
    elif "--missing" in a:
        names = [x for x in allseeds if not os.path.exists(os.path.join(VERIF, SEEDDIR, x, "detection.json"))]
    else:
        names = a
    names = [n for n in names if not json.load(open(os.path.join(VERIF, SEEDDIR, n, "meta.json"))).get("retired")]
    q = queue.Queue()
    for n in names:
        q.put(n)
    lock = threading.Lock()
    def worker(slot):
        while True:
            try:
                n = q.get_nowait()
            except queue.Empty:
                return
            try:
                res = try_one(slot, n, props, tier)
            except Exception as x:
                res = {"?": {"exit": 2, "lines": [repr(x)]}}
            with lock:
                for p, v in res.items():
                    print(f"{n} vs {p} ({tier}): exit={v['exit']} in {v.get('wall_s')}s", flush=True)
                    for l in v["lines"][:4]:
                        print("    " + l[:200], flush=True)
    ts = [threading.Thread(target=worker, args=(base + k,)) for k in range(min(jobs, max(1, len(names))))]
    [t.start() for t in ts]; [t.join() for t in ts]

if __name__ == "__main__":
    main()
