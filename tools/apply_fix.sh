#!/bin/bash
# tools/apply_fix.sh <dir-with-patches> : applies fix patches to /repo under the build lock, runs the pinned suite
set -e
mkdir -p /verif/target
exec 9>/verif/target/.check.lock
flock 9
cd /repo
if [ -n "$(git status --porcelain --untracked-files=no)" ]; then echo "refusing: /repo dirty"; git status --short; exit 2; fi
before=$(git rev-parse --short HEAD)
git -c user.name=builder -c user.email=builder@example.invalid am "$1"/*.patch
if ! cargo test --workspace --no-fail-fast --offline 2>&1 | grep -q "test result: ok. 171 passed; 0 failed"; then echo "PINNED SUITE FAILED - rolling back"; git reset -q --hard $before; exit 1; fi
git log --format='%h %s' $before..HEAD
