#!/usr/bin/env python3
"""tools/seed_prompts.py <prefix> [Cxx...] - writes /root/scratch/prompts/<prefix>-Cxx.md: the brief for an independent
seeding sub-agent (property text + its scratch worktree + what to deliver). Contains nothing about /verif's checks;
the only thing it takes from /verif/seeded is a one-line list of places other testers already changed (to avoid duplicates)."""
import json, os, re, sys
V = os.path.dirname(os.path.dirname(os.path.abspath(__file__)))
prefix = sys.argv[1]; want = sys.argv[2:]
EXTRA = os.environ.get("SEED_EXTRA", "")
if EXTRA: EXTRA = EXTRA.strip() + "\n\n"
props = [json.loads(l) for l in open(os.path.join(V, "properties.jsonl"))]
def prior(pid):
    out = []
    for d in sorted(os.listdir(os.path.join(V, "seeded"))):
        if not d.startswith(pid + "-"): continue
        try: m = json.load(open(os.path.join(V, "seeded", d, "meta.json")))
        except Exception: continue
        s = re.sub(r"\s+", " ", m.get("summary") or m.get("what") or "").strip()
        out.append("- " + s[:200])
    return "\n".join(out)
T = """# Task: seed one realistic property-breaking change into a Rust DNS library

You are an independent tester. The library is NLnetLabs/domain (Rust DNS library). You work ONLY in your own scratch
git worktree of it: `{wt}` (already created; do not touch `/repo`, do not read or write anything under `/verif`).
Use `CARGO_TARGET_DIR={wt}-target` and `--offline` for every cargo command (there is no network; `CARGO_NET_OFFLINE=true`).
Shell start-up may print conda warnings; ignore them. NEVER use `git stash` (the stash is shared between all worktrees of the
repository and other testers work in sibling worktrees): save a change with `git diff > file`, undo with `git checkout -- .`,
re-apply with `git apply file`.

## The property (this is all you are given)

```json
{prop}
```

## What to deliver

TWO different changes (SEED and SEED2) to the library's source, each of which
1. **breaks the property above** (for some input / schedule / history / fault sequence the property quantifies over),
2. **still compiles** (default features AND the full offline feature set:
   `bytes,heapless,serde,smallvec,std,ring,net,tsig,zonefile,tokio-stream,unstable-new,unstable-client-cache,unstable-client-transport,unstable-crypto,unstable-crypto-sign,unstable-server-transport,unstable-sign,unstable-validator,unstable-xfr,unstable-zonetree`; openssl and tokio-rustls cannot be built offline) without new warnings,
3. **passes the existing pinned test suite unchanged**: `cargo test --workspace --no-fail-fast --offline` (171 unit tests + doc tests must pass; run it yourself with the change applied),
4. looks like something a maintainer could plausibly commit: a refactoring, an optimisation (fast path, cache, hoisted buffer, early exit), a "tidy-up", a boundary condition, a changed order of two steps, a shared piece of state reused - NOT an obvious sabotage and not a change that ordinary use would expose at once.

**The change must need something specific to manifest**: a particular interleaving, a crash or fault at a particular point, a
multi-step sequence of operations, an unusual or boundary input, a non-default configuration, or two cooperating sites that each
look fine alone. Prefer defects in code paths that are two or three calls away from the obvious entry point, in state that
survives from one operation to the next, or in a second/alternative route to the same behaviour (another constructor, another
trait impl, a generic wrapper, a different feature-gated front end).

{extra}Other testers have already submitted the following changes for this property. **Do not repeat them; choose different
functions and a different mechanism** (different file where possible):

{prior}

For each change write a **demonstration**: an integration test file (placed in `{wt}/tests/<name>.rs` when you run it, using
only the library's public API and the features it needs) or a small example program that **passes on the unchanged tree and
fails with the change**. Run it both ways yourself.

## Output layout (exactly this)

```
{wt}/SEED/patch.diff      `git diff` of the library change only (src/ and, if unavoidable, Cargo.toml) against HEAD - NOT the demo
{wt}/SEED/demo/<name>.rs  the demonstration (+ RUN.md with the exact command)
{wt}/SEED/meta.json       {{"property": "{pid}", "summary": "<what was changed and why it breaks the property>",
                          "needs_to_manifest": "<what specific input/sequence/schedule/config is needed>",
                          "files_changed": [...], "baseline_cmd": "cargo test --workspace --no-fail-fast --offline",
                          "baseline_result": "<counts you observed with the change>",
                          "demo_cmd": "cargo test --offline --features <...> --test <name>",
                          "demo_with_change": "<result>", "demo_without_change": "<result>"}}
{wt}/SEED2/...            the same for the second change
```

`demo_cmd` must work from the worktree root once `demo/<name>.rs` has been copied to `tests/<name>.rs` (a `[[test]]` entry is not
needed for files in `tests/`; if your demo needs `required-features`, just pass `--features`). Each patch must apply to a clean
checkout of HEAD on its own (`git apply`), independent of the other. When you are done, leave the worktree's tracked files
clean (`git checkout -- . && git clean -fdq tests/`), keep only SEED/ and SEED2/, and remove `{wt}-target` (`rm -rf`). Report in
three lines per change: what it is, what it needs, and the observed demo/baseline results.
"""
for p in props:
    if want and p["id"] not in want: continue
    wt = f"/tmp/{prefix}-{p['id']}"
    open(f"/root/scratch/prompts/{prefix}-{p['id']}.md", "w").write(
        T.format(extra=EXTRA, wt=wt, prop=json.dumps(p, indent=1), prior=prior(p["id"]) or "(none)", pid=p["id"]))
    print(wt)
